#!/usr/bin/env python3
"""Spike: LLVM-14 textual IR -> typed C for CBMC.  Throw-away prototype.

usage: ir2c.py in.ll --roots f1,f2 [--stub sym=cname ...] [--stubfile file] -o out.c
"""
import re, sys, json, collections, argparse

# --------------------------------------------------------------------------- lexer
TOK = re.compile(r'''
   (?P<ws>\s+)
 | (?P<comment>;[^\n]*)
 | (?P<str>c?"(?:[^"\\]|\\[0-9A-Fa-f]{2}|\\\\)*")
 | (?P<gid>@(?:"(?:[^"\\]|\\.)*"|[-a-zA-Z$._0-9]+))
 | (?P<lid>%(?:"(?:[^"\\]|\\.)*"|[-a-zA-Z$._0-9]+))
 | (?P<meta>!(?:[-a-zA-Z$._0-9]+)?)
 | (?P<attr>\#[0-9]+)
 | (?P<num>-?[0-9]+\.[0-9]*(?:[eE][-+]?[0-9]+)?|0x[KLMHR]?[0-9A-Fa-f]+|-?[0-9]+)
 | (?P<word>[a-zA-Z_][-a-zA-Z_0-9.]*)
 | (?P<punct>\.\.\.|[()\[\]{}<>=,*:|])
''', re.X)

def lex(s):
    out = []; pos = 0; n = len(s)
    while pos < n:
        m = TOK.match(s, pos)
        if not m: raise SyntaxError('lex error at %r' % s[pos:pos+60])
        pos = m.end(); k = m.lastgroup
        if k in ('ws', 'comment'): continue
        out.append((k, m.group(k)))
    return out

# --------------------------------------------------------------------------- types
class Ty: pass
class IntTy(Ty):
    def __init__(s, bits): s.bits = bits
    def __repr__(s): return 'i%d' % s.bits
class FpTy(Ty):
    def __init__(s, kind): s.kind = kind
    def __repr__(s): return s.kind
class VoidTy(Ty):
    def __repr__(s): return 'void'
class PtrTy(Ty):
    def __init__(s, to): s.to = to
    def __repr__(s): return '%r*' % (s.to,)
class ArrTy(Ty):
    def __init__(s, n, el): s.n = n; s.el = el
    def __repr__(s): return '[%d x %r]' % (s.n, s.el)
class StructTy(Ty):
    def __init__(s, els, packed=False, name=None): s.els = els; s.packed = packed; s.name = name
    def __repr__(s): return s.name or (('<{%s}>' if s.packed else '{%s}') % ','.join(map(repr, s.els or [])))
class NamedTy(Ty):
    def __init__(s, name): s.name = name
    def __repr__(s): return s.name
class FnTy(Ty):
    def __init__(s, ret, params, vararg): s.ret = ret; s.params = params; s.vararg = vararg
    def __repr__(s): return '%r(%s%s)' % (s.ret, ','.join(map(repr, s.params)), ',...' if s.vararg else '')
class OtherTy(Ty):
    def __init__(s, k): s.k = k
    def __repr__(s): return s.k

PARAM_FLAGS = {'noundef', 'nonnull', 'nocapture', 'readonly', 'writeonly', 'readnone', 'zeroext', 'signext', 'returned',
               'noalias', 'immarg', 'inreg', 'nofree', 'nest', 'swiftself', 'swifterror'}
LINK = {'private', 'internal', 'available_externally', 'linkonce', 'weak', 'common', 'appending', 'extern_weak', 'linkonce_odr',
        'weak_odr', 'external', 'dso_local', 'dso_preemptable', 'hidden', 'protected', 'default', 'unnamed_addr',
        'local_unnamed_addr', 'thread_local', 'externally_initialized', 'fastcc', 'ccc', 'coldcc'}

class Parser:
    def __init__(s, toks): s.t = toks; s.i = 0
    def peek(s, k=0): return s.t[s.i + k] if s.i + k < len(s.t) else ('eof', '')
    def next(s):
        tk = s.peek(); s.i += 1; return tk
    def accept(s, val):
        if s.peek()[1] == val:
            s.i += 1; return True
        return False
    def expect(s, val):
        tk = s.next()
        if tk[1] != val:
            raise SyntaxError('expected %r got %r near %r' % (val, tk, s.t[max(0, s.i-8):s.i+8]))
    def at_end(s): return s.i >= len(s.t)

    def parse_type(s):
        k, v = s.next()
        if k == 'word':
            if v == 'void': ty = VoidTy()
            elif re.fullmatch(r'i[0-9]+', v): ty = IntTy(int(v[1:]))
            elif v in ('float', 'double', 'x86_fp80', 'half', 'fp128'): ty = FpTy(v)
            elif v in ('metadata', 'label', 'token', 'opaque'): ty = OtherTy(v)
            else: raise SyntaxError('type? %r at %r' % (v, s.t[max(0, s.i-6):s.i+6]))
        elif k == 'lid': ty = NamedTy(v)
        elif v == '[':
            n = int(s.next()[1]); s.expect('x'); el = s.parse_type(); s.expect(']'); ty = ArrTy(n, el)
        elif v == '{':
            ty = StructTy(s._els('}'))
        elif v == '<':
            if s.peek()[1] == '{':
                s.next(); els = s._els('}'); s.expect('>'); ty = StructTy(els, packed=True)
            else:
                s.next(); s.expect('x'); s.parse_type(); s.expect('>'); ty = OtherTy('vec')
        else:
            raise SyntaxError('type? %r %r' % (k, v))
        while True:
            if s.accept('*'): ty = PtrTy(ty)
            elif s.peek()[1] == '(':
                s.next(); params = []; va = False
                if not s.accept(')'):
                    while True:
                        if s.accept('...'): va = True
                        else:
                            params.append(s.parse_type()); s.skip_param_attrs()
                        if s.accept(')'): break
                        s.expect(',')
                ty = FnTy(ty, params, va)
            else: break
        return ty
    def _els(s, close):
        els = []
        if not s.accept(close):
            while True:
                els.append(s.parse_type())
                if s.accept(close): break
                s.expect(',')
        return els
    def skip_param_attrs(s):
        while True:
            k, v = s.peek()
            if k == 'word' and v in PARAM_FLAGS: s.next()
            elif k == 'word' and v in ('align', 'dereferenceable', 'dereferenceable_or_null'):
                s.next()
                if s.accept('('):
                    s.next(); s.expect(')')
                else: s.next()
            elif k == 'word' and v in ('sret', 'byval', 'byref', 'preallocated', 'inalloca', 'elementtype'):
                s.next(); s.expect('('); s.parse_type(); s.expect(')')
            else: break

# --------------------------------------------------------------------------- values
class V:
    def __init__(s, kind, ty=None, **kw): s.kind = kind; s.ty = ty; s.__dict__.update(kw)
    def __repr__(s): return 'V(%s,%r)' % (s.kind, s.ty)

CASTS = ('bitcast', 'ptrtoint', 'inttoptr', 'trunc', 'zext', 'sext', 'addrspacecast', 'fptosi', 'fptoui', 'sitofp', 'uitofp', 'fpext', 'fptrunc')
BINOPS = ('add', 'sub', 'mul', 'udiv', 'sdiv', 'urem', 'srem', 'shl', 'lshr', 'ashr', 'and', 'or', 'xor', 'fadd', 'fsub', 'fmul', 'fdiv', 'frem')

def parse_value(p, ty):
    k, v = p.next()
    if k == 'lid': return V('local', ty, name=v)
    if k == 'gid': return V('global', ty, name=v)
    if k == 'num': return V('num', ty, text=v)
    if k == 'str': return V('cstr', ty, text=v)
    if k == 'word':
        if v in ('true', 'false'): return V('num', ty, text='1' if v == 'true' else '0')
        if v in ('null', 'zeroinitializer', 'undef', 'poison', 'none'): return V(v, ty)
        if v == 'getelementptr':
            p.accept('inbounds')
            p.expect('('); bty = p.parse_type(); p.expect(',')
            ops = []
            while True:
                p.accept('inrange')
                t = p.parse_type(); ops.append(parse_value(p, t))
                if p.accept(')'): break
                p.expect(',')
            return V('cgep', ty, bty=bty, ops=ops)
        if v in CASTS:
            p.expect('('); t = p.parse_type(); o = parse_value(p, t); p.expect('to'); t2 = p.parse_type(); p.expect(')')
            return V('ccast', t2, op=v, a=o)
        if v in BINOPS:
            while p.peek()[1] in ('nuw', 'nsw', 'exact'): p.next()
            p.expect('('); t = p.parse_type(); a = parse_value(p, t); p.expect(','); t2 = p.parse_type(); b = parse_value(p, t2); p.expect(')')
            return V('cbin', t, op=v, a=a, b=b)
        if v in ('icmp', 'fcmp'):
            pred = p.next()[1]
            p.expect('('); t = p.parse_type(); a = parse_value(p, t); p.expect(','); t2 = p.parse_type(); b = parse_value(p, t2); p.expect(')')
            return V('ccmp', IntTy(1), op=v, pred=pred, a=a, b=b)
        if v == 'select':
            p.expect('('); t = p.parse_type(); c = parse_value(p, t); p.expect(','); t1 = p.parse_type(); a = parse_value(p, t1); p.expect(','); t2 = p.parse_type(); b = parse_value(p, t2); p.expect(')')
            return V('cselect', t1, c=c, a=a, b=b)
        raise SyntaxError('unsupported const ' + v)
    if v == '[':
        els = []
        if not p.accept(']'):
            while True:
                t = p.parse_type(); els.append(parse_value(p, t))
                if p.accept(']'): break
                p.expect(',')
        return V('carr', ty, els=els)
    if v == '{' or (v == '<' and p.peek()[1] == '{'):
        packed = (v == '<')
        if packed: p.next()
        els = []
        if not p.accept('}'):
            while True:
                t = p.parse_type(); els.append(parse_value(p, t))
                if p.accept('}'): break
                p.expect(',')
        if packed: p.expect('>')
        return V('cstruct', ty, els=els)
    raise SyntaxError('value? %r %r' % (k, v))

# --------------------------------------------------------------------------- module
class Fn:
    def __init__(s): s.name = None; s.ret = None; s.params = []; s.vararg = False; s.body = None; s.hdr = ''
class Module:
    def __init__(s):
        s.types = collections.OrderedDict(); s.globals = collections.OrderedDict(); s.fns = collections.OrderedDict()

def split_top(text):
    ents = []; cur = None
    for line in text.split('\n'):
        if cur is not None:
            cur.append(line)
            if line == '}':
                ents.append('\n'.join(cur)); cur = None
            continue
        if line.startswith('define '):
            cur = [line]; continue
        if line.strip() == '' or line.startswith(';'): continue
        ents.append(line)
    return ents

def parse_fn_header(p, f):
    while True:
        k, v = p.peek()
        if k == 'word' and (v in LINK or v in PARAM_FLAGS):
            p.next()
        elif k == 'word' and v in ('align', 'dereferenceable', 'dereferenceable_or_null'):
            p.skip_param_attrs()
        else: break
    f.ret = p.parse_type()
    k, v = p.next()
    assert k == 'gid', (k, v)
    f.name = v
    p.expect('(')
    if not p.accept(')'):
        while True:
            if p.accept('...'): f.vararg = True
            else:
                t = p.parse_type(); p.skip_param_attrs()
                nm = None
                if p.peek()[0] == 'lid': nm = p.next()[1]
                f.params.append((t, nm))
            if p.accept(')'): break
            p.expect(',')

def parse_module(text):
    m = Module()
    m.memptr_fns = sorted(set('@' + n for n in re.findall(r'ptrtoint \([^@()]*(?:\([^()]*\))?[^@()]*\*? @("?[-a-zA-Z$._0-9]+"?) to i64\)', text)))
    m.dilocals = dict(re.findall(r'^(![0-9]+) = !DILocalVariable\(name: "([^"]+)"', text, re.M))
    for ent in split_top(text):
        if ent.startswith('%'):
            p = Parser(lex(ent))
            name = p.next()[1]; p.expect('='); p.expect('type')
            if p.peek()[1] == 'opaque': m.types[name] = None
            else:
                t = p.parse_type(); t.name = name; m.types[name] = t
        elif ent.startswith('@'):
            # cut trailing ", align N" / ", comdat" / ", section" / ", !dbg" safely: parse from front
            p = Parser(lex(ent))
            name = p.next()[1]; p.expect('=')
            is_ext = False
            while p.peek()[0] == 'word' and p.peek()[1] in LINK:
                if p.next()[1] in ('external', 'extern_weak'): is_ext = True
            if p.peek()[1] in ('alias', 'ifunc'):
                m.globals[name] = dict(name=name, alias=True, ty=None, init=None, ext=True, const=False); continue
            w = p.next()[1]
            assert w in ('global', 'constant'), ent[:100]
            ty = p.parse_type(); init = None
            if not is_ext and not p.at_end() and p.peek()[1] != ',':
                init = parse_value(p, ty)
            m.globals[name] = dict(name=name, ty=ty, init=init, ext=is_ext, const=(w == 'constant'))
        elif ent.startswith('declare '):
            p = Parser(lex(ent[len('declare '):])); f = Fn(); parse_fn_header(p, f); m.fns[f.name] = f
        elif ent.startswith('define '):
            hdr, _, rest = ent.partition('{\n')
            p = Parser(lex(hdr[len('define '):])); f = Fn(); parse_fn_header(p, f)
            f.hdr = hdr; f.body = rest.rsplit('}', 1)[0]
            m.fns[f.name] = f
    return m

# --------------------------------------------------------------------------- instruction parsing
class Ins:
    def __init__(s, op, res=None, **kw): s.op = op; s.res = res; s.__dict__.update(kw)

def parse_body(f):
    """returns list of (label, [Ins])"""
    blocks = []; cur = None
    lines = f.body.split('\n')
    i = 0
    # first block label: implicit = number of params (unnamed) -- find from 'preds' comments is unreliable; compute
    nparams_unnamed = sum(1 for (t, n) in f.params if n is None)
    merged = []
    for line in lines:
        if not line.strip(): continue
        if line.startswith('          ') and merged:   # continuation (invoke 'to label', switch cases, landingpad clauses)
            merged[-1] += ' ' + line.strip()
        elif merged and (line.strip().startswith(']') or (line.startswith('    ') and not re.match(r'^  [%a-z@"]', line))):
            merged[-1] += ' ' + line.strip()
        else:
            merged.append(line)
    first = True
    for line in merged:
        mo = re.match(r'^([-a-zA-Z$._0-9]+|"[^"]*"):', line)
        if mo and not line.startswith(' '):
            cur = (mo.group(1), []); blocks.append(cur); first = False; continue
        if first:
            # entry block implicit label
            ent_label = None
            cur = ('__entry', []); blocks.append(cur); first = False
        toks = lex(line)
        cur[1].append(parse_ins(Parser(toks), line))
    return blocks

def parse_typed_value(p):
    t = p.parse_type(); p.skip_param_attrs(); return parse_value(p, t)

def skip_to_end(p):
    p.i = len(p.t)

def parse_call_tail(p, kind, res):
    # after 'call'/'invoke': [cconv] [ret attrs] <ty> <fnptrval>(<args>) [fn attrs] [to label X unwind label Y]
    while p.peek()[0] == 'word' and (p.peek()[1] in LINK or p.peek()[1] in PARAM_FLAGS or p.peek()[1] in ('fast', 'nnan', 'ninf', 'nsz', 'arcp', 'contract', 'afn', 'reassoc')):
        p.next()
    p.skip_param_attrs()
    rty = p.parse_type()
    # rty may be full function type (for varargs) or just the return type
    k, v = p.next()
    if k == 'gid': callee = V('global', None, name=v)
    elif k == 'lid': callee = V('local', None, name=v)
    elif k == 'word' and v in CASTS:
        p.i -= 1; callee = parse_value(p, None)
    elif k == 'word' and v == 'asm':
        while p.peek()[0] == 'word': p.next()
        tmpl = p.next()[1]
        if tmpl in ('""',): return Ins('nop', None)
        if 'pause' in tmpl or 'rep; nop' in tmpl: return Ins('nop', None)
        raise NotImplementedError('inline asm ' + tmpl)
    else: raise SyntaxError('callee? %r %r' % (k, v))
    p.expect('(')
    args = []
    if not p.accept(')'):
        while True:
            t = p.parse_type(); p.skip_param_attrs()
            if isinstance(t, OtherTy) and t.k == 'metadata':
                # metadata arg: skip until , or )
                depth = 0; mtoks = []
                while True:
                    kk, vv = p.peek()
                    if vv in ('(', '[', '{', '<'): depth += 1
                    elif vv in (')', ']', '}', '>'):
                        if depth == 0: break
                        depth -= 1
                    elif vv == ',' and depth == 0: break
                    mtoks.append(p.next())
                args.append(V('meta', t, toks=mtoks))
            else:
                args.append(parse_value(p, t))
            if p.accept(')'): break
            p.expect(',')
    fnty = rty if isinstance(rty, FnTy) else None
    ret = rty.ret if fnty else rty
    ins = Ins(kind, res, ret=ret, callee=callee, args=args, fnty=fnty)
    if kind == 'invoke':
        while p.peek()[1] != 'to': p.next()
        p.expect('to'); p.expect('label'); ins.normal = p.next()[1]; p.expect('unwind'); p.expect('label'); ins.unwind = p.next()[1]
    return ins

def parse_ins(p, line):
    # drop trailing metadata attachments (", !tbaa !5, !dbg !7 ...")
    for i in range(len(p.t) - 1):
        if p.t[i][1] == ',' and p.t[i+1][0] == 'meta':
            p.t = p.t[:i]; break
    res = None
    if p.peek()[0] == 'lid' and p.peek(1)[1] == '=':
        res = p.next()[1]; p.next()
    k, op = p.next()
    if op in ('tail', 'musttail', 'notail'):
        k, op = p.next()
    if op in BINOPS:
        while p.peek()[1] in ('nuw', 'nsw', 'exact', 'fast', 'nnan', 'ninf', 'nsz', 'arcp', 'contract', 'afn', 'reassoc'): p.next()
        t = p.parse_type(); a = parse_value(p, t); p.expect(','); b = parse_value(p, t)
        return Ins('bin', res, bop=op, ty=t, a=a, b=b)
    if op == 'fneg':
        while p.peek()[1] in ('fast', 'nnan', 'ninf', 'nsz', 'arcp', 'contract', 'afn', 'reassoc'): p.next()
        t = p.parse_type(); a = parse_value(p, t); return Ins('fneg', res, ty=t, a=a)
    if op in ('icmp', 'fcmp'):
        while p.peek()[1] in ('fast', 'nnan', 'ninf', 'nsz', 'arcp', 'contract', 'afn', 'reassoc'): p.next()
        pred = p.next()[1]; t = p.parse_type(); a = parse_value(p, t); p.expect(','); b = parse_value(p, t)
        return Ins('cmp', res, cop=op, pred=pred, ty=t, a=a, b=b)
    if op in CASTS:
        t = p.parse_type(); a = parse_value(p, t); p.expect('to'); t2 = p.parse_type()
        return Ins('cast', res, cop=op, a=a, ty=t2)
    if op == 'alloca':
        p.accept('inalloca')
        t = p.parse_type(); n = None
        if p.accept(','):
            if p.peek()[1] != 'align' and p.peek()[1] != 'addrspace':
                nt = p.parse_type(); n = parse_value(p, nt)
        return Ins('alloca', res, ty=t, n=n)
    if op == 'load':
        atomic = p.accept('atomic'); p.accept('volatile')
        t = p.parse_type(); p.expect(','); pt = p.parse_type(); a = parse_value(p, pt)
        return Ins('load', res, ty=t, a=a, atomic=atomic)
    if op == 'store':
        atomic = p.accept('atomic'); p.accept('volatile')
        t = p.parse_type(); v = parse_value(p, t); p.expect(','); pt = p.parse_type(); a = parse_value(p, pt)
        return Ins('store', None, ty=t, v=v, a=a, atomic=atomic)
    if op == 'getelementptr':
        p.accept('inbounds')
        bty = p.parse_type(); p.expect(',')
        ops = []
        while True:
            t = p.parse_type(); ops.append(parse_value(p, t))
            if not p.accept(','): break
        return Ins('gep', res, bty=bty, ops=ops)
    if op == 'phi':
        while p.peek()[1] in ('fast', 'nnan', 'ninf', 'nsz', 'arcp', 'contract', 'afn', 'reassoc'): p.next()
        t = p.parse_type(); inc = []
        while True:
            p.expect('['); v = parse_value(p, t); p.expect(','); lab = p.next()[1]; p.expect(']')
            inc.append((v, lab))
            if not p.accept(','): break
        return Ins('phi', res, ty=t, inc=inc)
    if op == 'select':
        while p.peek()[1] in ('fast', 'nnan', 'ninf', 'nsz', 'arcp', 'contract', 'afn', 'reassoc'): p.next()
        ct = p.parse_type(); c = parse_value(p, ct); p.expect(','); t = p.parse_type(); a = parse_value(p, t); p.expect(','); t2 = p.parse_type(); b = parse_value(p, t2)
        return Ins('select', res, ty=t, c=c, a=a, b=b)
    if op == 'br':
        if p.accept('label'):
            return Ins('br', None, target=p.next()[1])
        t = p.parse_type(); c = parse_value(p, t); p.expect(','); p.expect('label'); a = p.next()[1]; p.expect(','); p.expect('label'); b = p.next()[1]
        return Ins('condbr', None, c=c, t=a, f=b)
    if op == 'switch':
        t = p.parse_type(); v = parse_value(p, t); p.expect(','); p.expect('label'); dflt = p.next()[1]; p.expect('[')
        cases = []
        while not p.accept(']'):
            ct = p.parse_type(); cv = parse_value(p, ct); p.expect(','); p.expect('label'); cases.append((cv, p.next()[1]))
        return Ins('switch', None, ty=t, v=v, dflt=dflt, cases=cases)
    if op == 'ret':
        t = p.parse_type()
        if isinstance(t, VoidTy): return Ins('ret', None, v=None)
        return Ins('ret', None, v=parse_value(p, t), ty=t)
    if op == 'unreachable': return Ins('unreachable')
    if op == 'resume':
        t = p.parse_type(); return Ins('resume', None, v=parse_value(p, t))
    if op == 'call': return parse_call_tail(p, 'call', res)
    if op == 'invoke': return parse_call_tail(p, 'invoke', res)
    if op == 'landingpad':
        t = p.parse_type(); cleanup = False; clauses = []
        while not p.at_end():
            if p.accept('cleanup'): cleanup = True
            elif p.accept('catch'):
                ct = p.parse_type(); clauses.append(('catch', parse_value(p, ct)))
            elif p.accept('filter'):
                ct = p.parse_type(); clauses.append(('filter', parse_value(p, ct)))
            else: break
        return Ins('landingpad', res, ty=t, cleanup=cleanup, clauses=clauses)
    if op == 'extractvalue':
        t = p.parse_type(); a = parse_value(p, t); idx = []
        while p.accept(','): idx.append(int(p.next()[1]))
        return Ins('extractvalue', res, aty=t, a=a, idx=idx)
    if op == 'insertvalue':
        t = p.parse_type(); a = parse_value(p, t); p.expect(','); t2 = p.parse_type(); v = parse_value(p, t2); idx = []
        while p.accept(','): idx.append(int(p.next()[1]))
        return Ins('insertvalue', res, aty=t, a=a, vty=t2, v=v, idx=idx)
    if op == 'freeze':
        t = p.parse_type(); return Ins('freeze', res, ty=t, a=parse_value(p, t))
    if op == 'fence': return Ins('fence')
    if op == 'cmpxchg':
        p.accept('weak'); p.accept('volatile')
        pt = p.parse_type(); a = parse_value(p, pt); p.expect(','); t = p.parse_type(); c = parse_value(p, t); p.expect(','); t2 = p.parse_type(); n = parse_value(p, t2)
        return Ins('cmpxchg', res, ty=t, a=a, c=c, n=n)
    if op == 'atomicrmw':
        p.accept('volatile'); rop = p.next()[1]
        pt = p.parse_type(); a = parse_value(p, pt); p.expect(','); t = p.parse_type(); v = parse_value(p, t)
        return Ins('atomicrmw', res, rop=rop, ty=t, a=a, v=v)
    raise NotImplementedError('instruction %s in: %s' % (op, line.strip()[:160]))

# --------------------------------------------------------------------------- C emission
def cid(name):
    n = name[1:]
    if n.startswith('"'): n = n[1:-1]
    return re.sub(r'[^A-Za-z0-9_]', lambda mo: '_%02x' % ord(mo.group(0)), n)

def unescape(cstr):
    s = cstr[cstr.index('"')+1:-1]; out = []; i = 0
    while i < len(s):
        if s[i] == '\\':
            if s[i+1] == '\\': out.append(92); i += 2
            else: out.append(int(s[i+1:i+3], 16)); i += 3
        else: out.append(ord(s[i])); i += 1
    return out

LIBC = {'strlen','memcmp','strcmp','strncmp','strcpy','strncpy','memchr','strchr','malloc','free','calloc','realloc','abort','isdigit','isspace','toupper','tolower','islower','isupper','strcasecmp','bcmp'}

class Emitter:
    prefix = ''
    loopcuts = {}
    extra_protos = {}
    memptr_called = set()
    memptr_generic = False
    def __init__(s, m, stubs):
        s.m = m; s.stubs = stubs
        s.lit = collections.OrderedDict()      # key -> (cname, kind, ty)
        s.fnptrs = collections.OrderedDict()
        s.warn = []

    def resolve(s, t):
        while isinstance(t, NamedTy): t = s.m.types[t.name]
        return t
    def sname(s, ll): return 'S_' + cid(ll)

    def ctype(s, t):
        if isinstance(t, IntTy):
            b = t.bits
            if b <= 8: return 'uint8_t'
            if b <= 16: return 'uint16_t'
            if b <= 32: return 'uint32_t'
            if b <= 64: return 'uint64_t'
            if b <= 128: return 'unsigned __int128'
            raise NotImplementedError('int width %d' % b)
        if isinstance(t, FpTy): return {'float': 'float', 'double': 'double'}.get(t.kind, 'long double')
        if isinstance(t, VoidTy): return 'void'
        if isinstance(t, PtrTy):
            to = t.to
            if isinstance(to, FnTy): return s.fnptr(to)
            if isinstance(to, (VoidTy, OtherTy)): return 'void*'
            if isinstance(to, ArrTy): return s.ctype(PtrTy(to.el)) if False else s.ctype(to) + '*'
            return s.ctype(to) + '*'
        if isinstance(t, NamedTy): return 'struct ' + s.sname(t.name)
        if isinstance(t, StructTy):
            if t.name: return 'struct ' + s.sname(t.name)
            key = repr(t)
            if key not in s.lit: s.lit[key] = ('L%d' % len(s.lit), 'struct', t)
            return 'struct ' + s.lit[key][0]
        if isinstance(t, ArrTy):
            key = 'A' + repr(t)
            if key not in s.lit: s.lit[key] = ('A%d' % len(s.lit), 'array', t)
            return 'struct ' + s.lit[key][0]
        if isinstance(t, FnTy): return 'void'
        if isinstance(t, OtherTy): return 'void*'
        raise NotImplementedError(repr(t))

    def fnptr(s, ft):
        key = repr(ft)
        if key not in s.fnptrs: s.fnptrs[key] = ('FP%d' % len(s.fnptrs), ft)
        return s.fnptrs[key][0]

    def member(s, t, name):
        return '%s %s' % (s.ctype(t), name)

    def struct_def(s, cname, t):
        if not t.els: body = 'char _e;'
        else: body = ' '.join('%s;' % s.member(e, 'f%d' % i) for i, e in enumerate(t.els))
        return 'struct %s { %s }%s;' % (cname, body, ' __attribute__((packed))' if t.packed else '')

    # ------- type section (after everything else has been generated so that all literal types are known)
    def emit_type_section(s):
        out = []
        for nm in s.m.types: out.append('struct %s;' % s.sname(nm))
        # force registration of nested literal types
        changed = True
        while changed:
            n0 = len(s.lit) + len(s.fnptrs)
            for nm, t in list(s.m.types.items()):
                if t is not None:
                    for e in t.els: s.ctype(e)
            for key, (cn, kind, t) in list(s.lit.items()):
                if kind == 'struct':
                    for e in t.els: s.ctype(e)
                else: s.ctype(t.el)
            for key, (cn, ft) in list(s.fnptrs.items()):
                s.ctype(ft.ret)
                for pt in ft.params: s.ctype(pt)
            changed = (len(s.lit) + len(s.fnptrs)) != n0
        for key, (cn, kind, t) in s.lit.items(): out.append('struct %s;' % cn)
        for key, (cn, ft) in s.fnptrs.items():
            ps = ', '.join(s.ctype(pt) for pt in ft.params) or 'void'
            if ft.vararg: ps = (ps + ', ...') if ft.params else ''
            out.append('typedef %s (*%s)(%s);' % (s.ctype(ft.ret), cn, ps))
        # topological order for by-value containment
        done = set(); order = []
        def need(t):
            if isinstance(t, NamedTy): visit(('n', t.name))
            elif isinstance(t, StructTy):
                if t.name: visit(('n', t.name))
                else: visit(('l', repr(t)))
            elif isinstance(t, ArrTy): visit(('l', 'A' + repr(t)))
        def visit(k):
            if k in done: return
            done.add(k)
            if k[0] == 'n':
                t = s.m.types.get(k[1])
                if t is not None:
                    for e in t.els: need(e)
            else:
                cn, kind, t = s.lit[k[1]]
                if kind == 'struct':
                    for e in t.els: need(e)
                else: need(t.el)
            order.append(k)
        for nm in s.m.types: visit(('n', nm))
        for key in list(s.lit): visit(('l', key))
        for k in order:
            if k[0] == 'n':
                t = s.m.types[k[1]]
                if t is not None: out.append(s.struct_def(s.sname(k[1]), t))
            else:
                cn, kind, t = s.lit[k[1]]
                if kind == 'struct': out.append(s.struct_def(cn, t))
                else: out.append('struct %s { %s a[%d]; };' % (cn, s.ctype(t.el), max(t.n, 1)))
        return out

    # ------- constants
    def is_agg(s, t):
        t = s.resolve(t); return isinstance(t, (StructTy, ArrTy))

    def const_init(s, v, ty):
        """C initializer (brace form allowed)"""
        rt = s.resolve(ty)
        if v.kind in ('zeroinitializer', 'undef', 'poison'):
            if isinstance(rt, (StructTy, ArrTy)): return '{0}'
            return '0'
        if v.kind == 'cstr':
            bs = unescape(v.text); return '{{%s}}' % ','.join(map(str, bs))
        if v.kind == 'carr':
            return '{{%s}}' % ','.join(s.const_init(e, rt.el) for e in v.els)
        if v.kind == 'cstruct':
            return '{%s}' % ','.join(s.const_init(e, rt.els[i]) for i, e in enumerate(v.els))
        return s.expr(v, ty)

    def intlit(s, text, ty):
        bits = ty.bits if isinstance(ty, IntTy) else 64
        n = int(text, 0) if not text.startswith('0x') else int(text, 16)
        n &= (1 << bits) - 1
        if bits > 64:
            hi, lo = n >> 64, n & ((1 << 64) - 1)
            return '((((unsigned __int128)%dULL)<<64)|%dULL)' % (hi, lo)
        return '((%s)%dULL)' % (s.ctype(ty), n)

    def fplit(s, text, ty):
        if text.startswith('0x'):
            h = text[2:]
            if h[0] in 'KLMHR': raise NotImplementedError('fp80 literal')
            import struct
            d = struct.unpack('>d', bytes.fromhex(h.rjust(16, '0')))[0]
            if d != d: return '(0.0/0.0)'
            if d in (float('inf'), float('-inf')): return '(%s1.0/0.0)' % ('-' if d < 0 else '')
            return '(%s)%s' % (s.ctype(ty), d.hex())
        return '(%s)%s' % (s.ctype(ty), text)

    def expr(s, v, ty=None):
        ty = ty or v.ty
        k = v.kind
        if k == 'local': return 'v_' + cid(v.name)
        if k == 'global':
            g = v.name
            if g in s.m.fns:
                return '((%s)&%s)' % (s.ctype(ty), s.fname(g)) if ty is not None else s.fname(g)
            return '((%s)&%s)' % (s.ctype(ty), 'g_' + cid(g)) if ty is not None else '&g_' + cid(g)
        if k == 'num':
            if isinstance(ty, FpTy): return s.fplit(v.text, ty)
            return s.intlit(v.text, ty)
        if k == 'null': return '((%s)0)' % s.ctype(ty)
        if k in ('undef', 'poison', 'zeroinitializer'):
            if s.is_agg(ty): return '((%s){0})' % s.ctype(ty)
            if isinstance(ty, FpTy): return '0.0'
            return '((%s)0)' % s.ctype(ty)
        if k == 'cgep':
            return s.gep_expr(v.bty, v.ops, ty)
        if k == 'ccast':
            return s.cast_expr(v.op, v.a, v.ty)
        if k == 'cbin': return s.bin_expr(v.op, v.ty, v.a, v.b)
        if k == 'ccmp': return s.cmp_expr(v.op, v.pred, v.a.ty, v.a, v.b)
        if k == 'cselect': return '(%s ? %s : %s)' % (s.expr(v.c), s.expr(v.a), s.expr(v.b))
        if k in ('cstruct', 'carr', 'cstr'):
            return '((%s)%s)' % (s.ctype(ty), s.const_init(v, ty))
        raise NotImplementedError('expr kind ' + k)

    def fname(s, g):
        if g in s.stubs: return s.stubs[g]
        if g in getattr(s, 'wraps', ()): return 'w_' + cid(g)     # --wrap: call sites go to w_<name> (harness-defined); the real body keeps its own name
        f = s.m.fns.get(g)
        if f is not None and f.body is None: return 'x_' + cid(g)
        return s.prefix + cid(g)

    def gep_expr(s, bty, ops, resty):
        base = ops[0]
        e = s.expr(base)
        cur = bty
        idx0 = ops[1]
        e = '(*(%s + (int64_t)%s))' % (e, s.sidx(idx0))
        for o in ops[2:]:
            rt = s.resolve(cur)
            if isinstance(rt, StructTy):
                i = int(o.text); e = '%s.f%d' % (e, i); cur = rt.els[i]
            elif isinstance(rt, ArrTy):
                e = '%s.a[(int64_t)%s]' % (e, s.sidx(o)); cur = rt.el
            else: raise NotImplementedError('gep into %r' % rt)
        return '((%s)&%s)' % (s.ctype(resty), e) if resty is not None else '(&%s)' % e

    def sidx(s, v):
        # sign-extend index to int64
        t = v.ty
        if v.kind == 'num': return str(int(v.text))
        bits = t.bits
        st = {8: 'int8_t', 16: 'int16_t', 32: 'int32_t', 64: 'int64_t'}[bits if bits in (8, 16, 32, 64) else 64]
        return '(%s)%s' % (st, s.expr(v))

    def sty(s, t):
        b = t.bits
        if b <= 8: return 'int8_t', 8
        if b <= 16: return 'int16_t', 16
        if b <= 32: return 'int32_t', 32
        if b <= 64: return 'int64_t', 64
        return '__int128', 128

    def mask(s, e, t):
        """truncate C value to LLVM width"""
        if not isinstance(t, IntTy): return e
        b = t.bits
        if b in (8, 16, 32, 64, 128): return '((%s)(%s))' % (s.ctype(t), e)
        return '((%s)((%s) & %s))' % (s.ctype(t), e, s.intlit(str((1 << b) - 1), IntTy(max(b, 8) if b <= 64 else 128)))

    def sext(s, e, t):
        """C signed value of an LLVM int value e of type t"""
        st, cb = s.sty(t)
        b = t.bits
        if b == cb: return '((%s)%s)' % (st, e)
        return '((%s)(((%s)%s) << %d) >> %d)' % (st, st, e, cb - b, cb - b)

    def bin_expr(s, op, t, a, b):
        if op == 'sub' and getattr(s, 'ptrdiff', False) and a.kind == 'local' and b.kind == 'local' and a.name in getattr(s, 'p2i', {}) and b.name in s.p2i:
            # opt-in (--ptrdiff): sub(ptrtoint p, ptrtoint q) stays a pointer difference (CBMC folds same-object offsets; through uintptr_t it cannot)
            if getattr(s, 'ptrdiff0', False):   # opt-in (--ptrdiff0): equal pointers (e.g. both null: empty std::vector) give 0 without asking CBMC for a difference inside the null object
                return s.mask('((uint8_t*)%s == (uint8_t*)%s ? (uint64_t)0 : (uint64_t)((uint8_t*)%s - (uint8_t*)%s))' % (s.expr(s.p2i[a.name]), s.expr(s.p2i[b.name]), s.expr(s.p2i[a.name]), s.expr(s.p2i[b.name])), t)
            return s.mask('(uint64_t)((uint8_t*)%s - (uint8_t*)%s)' % (s.expr(s.p2i[a.name]), s.expr(s.p2i[b.name])), t)
        A, B = s.expr(a, t), s.expr(b, t)
        if isinstance(t, FpTy):
            o = {'fadd': '+', 'fsub': '-', 'fmul': '*', 'fdiv': '/'}.get(op)
            if o: return '(%s %s %s)' % (A, o, B)
            if op == 'frem': return 'fmod(%s,%s)' % (A, B)
        o = {'add': '+', 'sub': '-', 'mul': '*', 'and': '&', 'or': '|', 'xor': '^'}.get(op)
        ct = s.ctype(t)
        if o: return s.mask('(%s)%s %s (%s)%s' % (ct, A, o, ct, B), t)
        if op == 'udiv': return s.mask('(%s)%s / (%s)%s' % (ct, A, ct, B), t)
        if op == 'urem': return s.mask('(%s)%s %% (%s)%s' % (ct, A, ct, B), t)
        if op == 'sdiv': return s.mask('(%s)(%s / %s)' % (ct, s.sext(A, t), s.sext(B, t)), t)
        if op == 'srem': return s.mask('(%s)(%s %% %s)' % (ct, s.sext(A, t), s.sext(B, t)), t)
        if op == 'shl': return s.mask('(%s)%s << %s' % (ct, A, B), t)
        if op == 'lshr': return s.mask('(%s)%s >> %s' % (ct, A, B), t)
        if op == 'ashr': return s.mask('(%s)(%s >> %s)' % (ct, s.sext(A, t), B), t)
        raise NotImplementedError(op)

    def cmp_expr(s, cop, pred, t, a, b):
        A, B = s.expr(a, t), s.expr(b, t)
        if cop == 'fcmp':
            m = {'oeq': '(%s == %s)', 'ogt': '(%s > %s)', 'oge': '(%s >= %s)', 'olt': '(%s < %s)', 'ole': '(%s <= %s)',
                 'one': '(%s < %s || %s > %s)', 'ord': '(%s == %s && %s == %s)',
                 'ueq': '!(%s < %s || %s > %s)', 'ugt': '!(%s <= %s)', 'uge': '!(%s < %s)', 'ult': '!(%s >= %s)', 'ule': '!(%s > %s)',
                 'une': '(%s != %s)', 'uno': '(%s != %s || %s != %s)', 'true': '1', 'false': '0'}[pred]
            if pred in ('one', 'ueq'): return '((uint8_t)%s)' % (m % (A, B, A, B))
            if pred in ('ord', 'uno'): return '((uint8_t)%s)' % (m % (A, A, B, B))
            if pred in ('true', 'false'): return m
            return '((uint8_t)%s)' % (m % (A, B))
        if isinstance(s.resolve(t), PtrTy):
            A = '(uintptr_t)' + A; B = '(uintptr_t)' + B
            o = {'eq': '==', 'ne': '!=', 'ugt': '>', 'uge': '>=', 'ult': '<', 'ule': '<=', 'sgt': '>', 'sge': '>=', 'slt': '<', 'sle': '<='}[pred]
            if pred in ('eq', 'ne'):
                return '((uint8_t)(%s %s %s))' % (s.expr(a, t), o, s.expr(b, t))
            if getattr(s, 'ptrcmp', False):    # opt-in (--ptrcmp): relational pointer comparison stays a pointer comparison (CBMC folds same-object offsets; through uintptr_t it cannot)
                return '((uint8_t)((uint8_t*)%s %s (uint8_t*)%s))' % (s.expr(a, t), o, s.expr(b, t))
            return '((uint8_t)(%s %s %s))' % (A, o, B)
        if pred in ('eq', 'ne', 'ugt', 'uge', 'ult', 'ule'):
            o = {'eq': '==', 'ne': '!=', 'ugt': '>', 'uge': '>=', 'ult': '<', 'ule': '<='}[pred]
            return '((uint8_t)(%s %s %s))' % (A, o, B)
        o = {'sgt': '>', 'sge': '>=', 'slt': '<', 'sle': '<='}[pred]
        return '((uint8_t)(%s %s %s))' % (s.sext(A, t), o, s.sext(B, t))

    def cast_expr(s, op, a, to):
        A = s.expr(a)
        ct = s.ctype(to)
        if op in ('bitcast', 'addrspacecast'):
            fr = s.resolve(a.ty); tr = s.resolve(to)
            if isinstance(fr, PtrTy) and isinstance(tr, PtrTy): return '((%s)%s)' % (ct, A)
            # scalar bitcast (int<->fp)
            return '(*(%s*)&(%s){%s})' % (ct, s.ctype(a.ty), A)
        if op == 'ptrtoint': return s.mask('(uintptr_t)%s' % A, to)
        if op == 'inttoptr': return '((%s)(uintptr_t)%s)' % (ct, A)
        if op == 'trunc': return s.mask(A, to)
        if op == 'zext': return '((%s)%s)' % (ct, A)
        if op == 'sext': return s.mask('(%s)%s' % (s.sty(to)[0], s.sext(A, a.ty)), to)
        if op in ('fptosi',): return s.mask('(%s)%s' % (s.sty(to)[0], A), to)
        if op in ('fptoui',): return s.mask('(%s)%s' % (ct, A), to)
        if op == 'sitofp': return '((%s)%s)' % (ct, s.sext(A, a.ty))
        if op == 'uitofp': return '((%s)%s)' % (ct, A)
        if op in ('fpext', 'fptrunc'): return '((%s)%s)' % (ct, A)
        raise NotImplementedError(op)

    # ------- function
    def stub_proto(s, f):
        def g(t): return 'void*' if isinstance(s.resolve(t), PtrTy) else s.ctype(t)
        ps = ', '.join(g(t) for (t, n) in f.params) or 'void'
        return '%s %s(%s)' % (g(f.ret), s.stubs[f.name], ps)

    def proto(s, f, name=None):
        ps = ', '.join('%s %s' % (s.ctype(t), ('v_' + cid(n)) if n else 'v_%d' % i) for i, (t, n) in enumerate(f.params))
        if not f.params: ps = 'void'
        if f.vararg: ps = (ps + ', ...') if f.params else ''
        return '%s %s(%s)' % (s.ctype(f.ret), name or s.fname(f.name), ps)

    def emit_fn(s, f):
        blocks = parse_body(f)
        # name unnamed params / entry label
        nextnum = 0
        params = []
        for (t, n) in f.params:
            if n is None:
                n = '%%%d' % nextnum; nextnum += 1
            elif re.fullmatch(r'%[0-9]+', n):
                nextnum = int(n[1:]) + 1
            params.append((t, n))
        entry_label = str(nextnum)
        out = []
        ps = ', '.join('%s v_%s' % (s.ctype(t), cid(n)) for (t, n) in params) or 'void'
        if f.vararg: ps += ', ...'
        out.append('/* fn: %s */\n%s %s(%s)\n{' % (f.name[1:], s.ctype(f.ret), (s.prefix + cid(f.name)) if f.name in getattr(s, 'wraps', ()) else s.fname(f.name), ps))
        decls = collections.OrderedDict(); body = []
        labels = {}
        blocks = [((entry_label if lab == '__entry' else lab), ins) for lab, ins in blocks]
        def L(lab):
            lab = lab[1:] if lab.startswith('%') else lab
            if lab.startswith('"'): lab = lab[1:-1]
            return 'L_' + re.sub(r'[^A-Za-z0-9_]', '_', lab)
        # collect phis per block
        phis = {}
        s.p2i = {}      # results of ptrtoint casts -> pointer operand (used by --ptrdiff)
        for lab, inss in blocks:
            for ins in inss:
                if ins.op == 'phi': phis.setdefault(lab, []).append(ins)
                elif ins.op == 'cast' and getattr(ins, 'cop', None) == 'ptrtoint' and ins.res: s.p2i[ins.res] = ins.a
        # loop cut: header blocks whose phis carry the requested source-variable names (-g)
        cutinfo = {}
        order = {lab: i for i, (lab, _) in enumerate(blocks)}
        for cut in s.loopcuts.get(f.name[1:], []):
            for lab, inss in blocks:
                if lab not in phis: continue
                names = {}
                for ins in inss:
                    if ins.op == 'call' and ins.callee.kind == 'global' and ins.callee.name == '@llvm.dbg.value' and len(ins.args) >= 2:
                        a0 = getattr(ins.args[0], 'toks', []); a1 = getattr(ins.args[1], 'toks', [])
                        loc = [v for k, v in a0 if k == 'lid']; md = [v for k, v in a1 if k == 'meta']
                        if loc and md and md[0] in s.m.dilocals: names.setdefault(s.m.dilocals[md[0]], loc[0])
                byres = {pi.res: pi for pi in phis[lab]}
                if all(v in names and names[v] in byres for v in cut['vars']) and len(cut['vars']) == len(phis[lab]):
                    cutinfo[lab] = (cut['hook'], [byres[names[v]] for v in cut['vars']]); cut['found'] = lab
        def edge(frm, to):
            """statements to execute on CFG edge frm->to (phi copies, parallel)"""
            tolab = to[1:] if to.startswith('%') else to
            if tolab.startswith('"'): tolab = tolab[1:-1]
            r = edge0(frm, to, tolab)
            if tolab in cutinfo:
                hook, ps = cutinfo[tolab]
                if order[frm] >= order[tolab]:     # back edge: invariant must hold again; stop exploring
                    call = '%s_back(%s); __CPROVER_assume(0);' % (hook, ', '.join('v_' + cid(pi.res) for pi in ps))
                else:                              # entry edge: base case, then arbitrary state satisfying the invariant
                    call = '%s_entry(%s);' % (hook, ', '.join('&v_' + cid(pi.res) for pi in ps))
                s.extra_protos['%s_back' % hook] = 'void %s_back(%s);' % (hook, ', '.join(s.ctype(pi.ty) for pi in ps))
                s.extra_protos['%s_entry' % hook] = 'void %s_entry(%s);' % (hook, ', '.join(s.ctype(pi.ty) + '*' for pi in ps))
                r = r.replace('goto %s;' % L(to), call + ' goto %s;' % L(to))
                if not r.startswith('{'): r = '{ ' + r + ' }'
            else:
                # exit edge of a rotated loop: frm is a latch of a cut header, 'to' lies after the loop
                for hl, (hook, ps) in cutinfo.items():
                    if tolab != hl and any(_lab(l) == frm for pi in ps for (v, l) in pi.inc) and order[frm] >= order[hl] and order[tolab] > order[frm]:
                        vals = []
                        for pi in ps:
                            for (v, l) in pi.inc:
                                if _lab(l) == frm: vals.append(s.expr(v, pi.ty)); break
                        s.extra_protos['%s_exit' % hook] = 'void %s_exit(%s);' % (hook, ', '.join(s.ctype(pi.ty) for pi in ps))
                        r = '{ %s_exit(%s); %s }' % (hook, ', '.join(vals), r)
            return r
        def _lab(l):
            ll = l[1:]
            return ll[1:-1] if ll.startswith('"') else ll
        def edge0(frm, to, tolab):
            st = []
            ph = phis.get(tolab, [])
            if not ph: return 'goto %s;' % L(to)
            tmps = []
            for i, pi in enumerate(ph):
                val = None
                for (v, l) in pi.inc:
                    ll = l[1:]
                    if ll.startswith('"'): ll = ll[1:-1]
                    if ll == frm: val = v; break
                if val is None: raise RuntimeError('phi: no incoming for %s in %s (%s)' % (frm, tolab, f.name))
                if val.kind in ('undef', 'poison'): continue
                tn = 't_%s' % cid(pi.res)
                decls[tn] = s.ctype(pi.ty)
                st.append('%s = %s;' % (tn, s.expr(val, pi.ty)))
                tmps.append((pi, tn))
            for pi, tn in tmps: st.append('v_%s = %s;' % (cid(pi.res), tn))
            return '{ %s goto %s; }' % (' '.join(st), L(to))
        s.typed_new = {}; s.inttoptr_src = {}
        s.load_of = {}; s.gep_of = {}      # for --vdispatch: %fp = load (gep (load vptr), K)
        for lab, inss in blocks:
            for ins in inss:
                if ins.op == 'cast' and ins.cop == 'inttoptr' and ins.res: s.inttoptr_src[ins.res] = ins.a
                if ins.op == 'load' and ins.res: s.load_of[ins.res] = ins.a
                if ins.op == 'gep' and ins.res: s.gep_of[ins.res] = ins.ops
        s.phi_memptr = set()
        for lab, inss in blocks:
            for ins in inss:
                if ins.op == 'phi' and any(v.kind == 'local' and v.name in s.inttoptr_src for (v, l) in ins.inc): s.phi_memptr.add(ins.res)
        for lab, inss in blocks:
            for ins in inss:
                if ins.op == 'cast' and ins.cop == 'bitcast' and ins.a.kind == 'local' and isinstance(ins.ty, PtrTy) and isinstance(s.resolve(ins.ty.to), StructTy):
                    s.typed_new.setdefault(ins.a.name, ins.ty.to)
        # opt-in (--typed-alloc): element type of an operator new / new[] result whose size is not a literal (allocator<T>::allocate(n), new T[n]):
        # taken from the first bitcast of the result, or from the slot type it is stored through (T** slot viewed as i8**)
        s.alloc_elem = {}
        if getattr(s, 'typed_alloc', False):
            bc_src = {}
            for lab, inss in blocks:
                for ins in inss:
                    if ins.op == 'cast' and ins.cop == 'bitcast' and ins.res and isinstance(ins.ty, PtrTy):
                        bc_src[ins.res] = ins.a
                        if ins.a.kind == 'local' and not (isinstance(ins.ty.to, IntTy) and ins.ty.to.bits == 8) and not isinstance(ins.ty.to, (VoidTy, FnTy, OtherTy)):
                            s.alloc_elem.setdefault(ins.a.name, ins.ty.to)
            for lab, inss in blocks:
                for ins in inss:
                    if ins.op == 'store' and ins.v.kind == 'local' and ins.a.kind == 'local' and ins.a.name in bc_src:
                        st = bc_src[ins.a.name].ty
                        if isinstance(st, PtrTy) and isinstance(st.to, PtrTy) and not isinstance(st.to.to, (VoidTy, FnTy, OtherTy)) and not (isinstance(st.to.to, IntTy) and st.to.to.bits == 8):
                            s.alloc_elem.setdefault(ins.v.name, st.to.to)
        zero_ret = '' if isinstance(f.ret, VoidTy) else ' (%s){0}' % s.ctype(f.ret) if s.is_agg(f.ret) else ' 0'
        propagate = 'if (__vf_exc_pending) return%s;' % zero_ret
        if getattr(s, 'rpo', False) and not s.loopcuts.get(f.name[1:]):
            # opt-in (--rpo): emit the blocks in reverse post-order of the CFG, so that only genuine loops have backward gotos.  In IR
            # order shared landing pads / cleanup blocks often precede the invokes that jump to them; CBMC treats every backward goto
            # as a loop to unwind and symex of exception-heavy functions (Session::process: 34 such "loops") becomes very slow.
            succ = {}
            for lab, inss in blocks:
                tg = []
                for ins in inss:
                    if ins.op == 'br': tg.append(ins.target)
                    elif ins.op == 'condbr': tg += [ins.t, ins.f]
                    elif ins.op == 'switch': tg += [tl for cv, tl in ins.cases] + [ins.dflt]
                    elif ins.op == 'invoke': tg += [ins.normal, ins.unwind]
                succ[lab] = [_lab(x) for x in tg]
            seen_b = set(); post = []
            stack = [(blocks[0][0], iter(succ.get(blocks[0][0], [])))]; seen_b.add(blocks[0][0])
            while stack:
                lab0, it = stack[-1]
                for nx in it:
                    if nx not in seen_b and nx in succ:
                        seen_b.add(nx); stack.append((nx, iter(succ[nx]))); break
                else:
                    post.append(lab0); stack.pop()
            bymap = dict(blocks); rpo_labs = post[::-1]
            blocks = [(lab0, bymap[lab0]) for lab0 in rpo_labs] + [(lab0, inss) for lab0, inss in blocks if lab0 not in seen_b]
        for lab, inss in blocks:
            body.append('%s: ;' % L(lab))
            for ins in inss:
                if ins.res is not None and ins.op != 'alloca' and ins.op not in ('call', 'invoke'):
                    pass
                r = ('v_' + cid(ins.res)) if ins.res else None
                op = ins.op
                if op == 'phi':
                    decls[r] = s.ctype(ins.ty); continue
                if op == 'bin':
                    decls[r] = s.ctype(ins.ty); body.append('%s = %s;' % (r, s.bin_expr(ins.bop, ins.ty, ins.a, ins.b)))
                elif op == 'fneg':
                    decls[r] = s.ctype(ins.ty); body.append('%s = -%s;' % (r, s.expr(ins.a)))
                elif op == 'cmp':
                    decls[r] = 'uint8_t'; body.append('%s = %s;' % (r, s.cmp_expr(ins.cop, ins.pred, ins.ty, ins.a, ins.b)))
                elif op == 'cast':
                    decls[r] = s.ctype(ins.ty); body.append('%s = %s;' % (r, s.cast_expr(ins.cop, ins.a, ins.ty)))
                elif op == 'alloca':
                    an = 'a_' + cid(ins.res)
                    if ins.n is not None and ins.n.kind != 'num':
                        decls[r] = s.ctype(PtrTy(ins.ty))
                        body.append('%s = (%s)__vf_alloca(sizeof(%s) * (size_t)%s);' % (r, s.ctype(PtrTy(ins.ty)), s.ctype(ins.ty), s.expr(ins.n)))
                    else:
                        cnt = int(ins.n.text) if ins.n is not None else 1
                        decls[an] = (s.ctype(ins.ty), cnt)
                        decls[r] = s.ctype(PtrTy(ins.ty))
                        body.append('%s = %s%s;' % (r, '&' if cnt == 1 else '', an))
                elif op == 'load':
                    decls[r] = s.ctype(ins.ty); body.append('%s = *%s;' % (r, s.expr(ins.a)))
                elif op == 'store':
                    body.append('*%s = %s;%s' % (s.expr(ins.a), s.expr(ins.v, ins.ty), ' VF_YIELD();' if getattr(ins, 'atomic', False) else ''))
                elif op == 'gep':
                    # result type: pointer to indexed type
                    cur = ins.bty
                    for o in ins.ops[2:]:
                        rt = s.resolve(cur)
                        cur = rt.els[int(o.text)] if isinstance(rt, StructTy) else rt.el
                    rty = PtrTy(cur)
                    decls[r] = s.ctype(rty); body.append('%s = %s;' % (r, s.gep_expr(ins.bty, ins.ops, rty)))
                elif op == 'select':
                    decls[r] = s.ctype(ins.ty); body.append('%s = %s ? %s : %s;' % (r, s.expr(ins.c), s.expr(ins.a, ins.ty), s.expr(ins.b, ins.ty)))
                elif op == 'freeze':
                    decls[r] = s.ctype(ins.ty); body.append('%s = %s;' % (r, s.expr(ins.a, ins.ty)))
                elif op == 'br': body.append(edge(lab, ins.target))
                elif op == 'condbr':
                    body.append('if (%s) %s else %s' % (s.expr(ins.c), edge(lab, ins.t), edge(lab, ins.f)))
                elif op == 'switch':
                    body.append('switch (%s) {' % s.expr(ins.v))
                    seen = set()
                    for cv, tl in ins.cases:
                        body.append('  case %s: %s' % (s.expr(cv, ins.ty), edge(lab, tl)))
                    body.append('  default: %s }' % edge(lab, ins.dflt))
                elif op == 'ret':
                    body.append('return%s;' % ('' if ins.v is None else ' ' + s.expr(ins.v, ins.ty)))
                elif op == 'unreachable':
                    body.append('__CPROVER_assume(0); return%s;' % zero_ret)
                elif op == 'resume':
                    body.append('return%s; /* resume: exception stays pending */' % zero_ret)
                elif op in ('call', 'invoke'):
                    s.emit_call(ins, r, decls, body)
                    # __cxa_end_catch of the exception model never throws; after `throw;` inside a handler the flag is (still) pending while the
                    # handler's clean-up runs end_catch: testing the flag here would misread the rethrown exception as one thrown by end_catch
                    endcatch = ins.callee.kind == 'global' and ins.callee.name == '@__cxa_end_catch'
                    if op == 'invoke':
                        if endcatch: body.append(edge(lab, ins.normal))
                        else: body.append('if (__vf_exc_pending) %s else %s' % (edge(lab, ins.unwind), edge(lab, ins.normal)))
                    elif not getattr(ins, 'nothrow', False) and not endcatch:
                        body.append(propagate)
                elif op == 'landingpad':
                    decls[r] = s.ctype(ins.ty)
                    cl = []
                    for kind, cv in ins.clauses:
                        if kind == 'catch':
                            cl.append(s.expr(cv, PtrTy(IntTy(8))) if cv.kind != 'null' else '(uint8_t*)0')
                    body.append('{ void *__cl[] = {%s}; %s.f0 = (uint8_t*)__vf_exc_obj; %s.f1 = __vf_landing(__cl, %d, %d); }' %
                                (', '.join('(void*)' + c for c in cl) or '0', r, r, len(cl), 1 if ins.cleanup else 0))
                    body.append('if (%s.f1 == 0xffffffffu) return%s; /* no clause matches: keep unwinding */' % (r, zero_ret))
                elif op == 'extractvalue':
                    e = s.expr(ins.a, ins.aty); cur = ins.aty
                    for i in ins.idx:
                        rt = s.resolve(cur)
                        if isinstance(rt, StructTy): e += '.f%d' % i; cur = rt.els[i]
                        else: e += '.a[%d]' % i; cur = rt.el
                    decls[r] = s.ctype(cur); body.append('%s = %s;' % (r, e))
                elif op == 'insertvalue':
                    decls[r] = s.ctype(ins.aty); body.append('%s = %s;' % (r, s.expr(ins.a, ins.aty)))
                    e = r; cur = ins.aty
                    for i in ins.idx:
                        rt = s.resolve(cur)
                        if isinstance(rt, StructTy): e += '.f%d' % i; cur = rt.els[i]
                        else: e += '.a[%d]' % i; cur = rt.el
                    body.append('%s = %s;' % (e, s.expr(ins.v, ins.vty)))
                elif op == 'nop': pass
                elif op == 'fence': body.append('__vf_fence();')
                elif op == 'cmpxchg':
                    decls[r] = s.ctype(StructTy([ins.ty, IntTy(1)]))
                    body.append('VF_ATOMIC_BEGIN(); %s.f0 = *%s; %s.f1 = (%s.f0 == %s); if (%s.f1) *%s = %s; VF_ATOMIC_END(); VF_YIELD();' %
                                (r, s.expr(ins.a), r, r, s.expr(ins.c, ins.ty), r, s.expr(ins.a), s.expr(ins.n, ins.ty)))
                elif op == 'atomicrmw':
                    decls[r] = s.ctype(ins.ty)
                    o = {'add': '+', 'sub': '-', 'and': '&', 'or': '|', 'xor': '^'}.get(ins.rop)
                    p_ = s.expr(ins.a)
                    if o: upd = '*%s = %s;' % (p_, s.mask('%s %s %s' % (r, o, s.expr(ins.v, ins.ty)), ins.ty))
                    elif ins.rop == 'xchg': upd = '*%s = %s;' % (p_, s.expr(ins.v, ins.ty))
                    else: raise NotImplementedError('atomicrmw ' + ins.rop)
                    body.append('VF_ATOMIC_BEGIN(); %s = *%s; %s VF_ATOMIC_END(); VF_YIELD();' % (r, p_, upd))
                else:
                    raise NotImplementedError(op)
        for nm, ct in decls.items():
            if isinstance(ct, tuple): out.append('  %s %s%s;' % (ct[0], nm, '' if ct[1] == 1 else '[%d]' % ct[1]))
            else: out.append('  %s %s;' % (ct, nm))
        out.extend('  ' + b for b in body)
        out.append('}')
        return '\n'.join(out)

    INTRINSIC_SKIP = ('llvm.lifetime.', 'llvm.dbg.', 'llvm.assume', 'llvm.experimental.noalias', 'llvm.invariant.', 'llvm.prefetch', 'llvm.donothing')

    def emit_call(s, ins, r, decls, body):
        c = ins.callee
        name = c.name[1:] if c.kind == 'global' else None
        args = [a for a in ins.args if a.kind != 'meta']
        if name and name.startswith(s.INTRINSIC_SKIP):
            ins.nothrow = True; return
        A = [s.expr(a) for a in args]
        call = None
        if name and name.startswith('llvm.'):
            ins.nothrow = True
            base = name.split('.')[1]
            if base in ('memcpy', 'memmove'): call = '%s(%s, %s, (size_t)%s)' % (base, A[0], A[1], A[2])
            elif base == 'memset': call = 'memset(%s, (int)%s, (size_t)%s)' % (A[0], A[1], A[2])
            elif base in ('umin', 'umax'): call = '((%s) %s (%s) ? (%s) : (%s))' % (A[0], '<' if base == 'umin' else '>', A[1], A[0], A[1])
            elif base in ('smin', 'smax'):
                t = args[0].ty; sa, sb = s.sext(A[0], t), s.sext(A[1], t)
                call = '(%s %s %s ? %s : %s)' % (sa, '<' if base == 'smin' else '>', sb, A[0], A[1])
            elif base == 'abs':
                t = args[0].ty; call = s.mask('(%s < 0 ? -%s : %s)' % (s.sext(A[0], t), s.sext(A[0], t), s.sext(A[0], t)), t)
            elif base == 'eh' and 'typeid' in name: call = '__vf_typeid_for((void*)%s)' % A[0]
            elif base == 'trap': call = '__vf_trap()'
            elif base == 'fmuladd': call = '(%s * %s + %s)' % (A[0], A[1], A[2])
            elif base in ('fabs',): call = '__builtin_fabs(%s)' % A[0]
            elif base in ('floor', 'ceil', 'trunc', 'round', 'sqrt'): call = '%s(%s)' % (base, A[0])
            elif base in ('uadd', 'usub', 'umul') and 'with.overflow' in name:
                t = args[0].ty; b = t.bits; wide = 'unsigned __int128' if b > 32 else 'uint64_t'
                o = {'uadd': '+', 'usub': '-', 'umul': '*'}[base]
                decls[r] = s.ctype(ins.ret)
                if base == 'usub':
                    body.append('%s.f0 = %s; %s.f1 = (%s < %s);' % (r, s.mask('%s - %s' % (A[0], A[1]), t), r, A[0], A[1]))
                else:
                    body.append('{ %s __w = (%s)%s %s (%s)%s; %s.f0 = %s; %s.f1 = (__w >> %d) != 0; }' % (wide, wide, A[0], o, wide, A[1], r, s.mask('__w', t), r, b))
                return
            elif base == 'ctpop': call = '((%s)__builtin_popcountll((unsigned long long)%s))' % (s.ctype(args[0].ty), A[0])
            elif base == 'expect': call = A[0]
            elif base in ('bswap', 'ctlz', 'cttz', 'fshl', 'fshr', 'is', 'stacksave', 'stackrestore', 'va_start', 'va_end', 'objectsize', 'sadd', 'ssub', 'smul'):
                call = '__vf_%s_%d(%s)' % (name.replace('.', '_'), 0, ', '.join(A)); s.warn.append('intrinsic ' + name)
            else:
                s.warn.append('unknown intrinsic ' + name); call = '__vf_%s(%s)' % (name.replace('.', '_'), ', '.join(A))
        elif c.kind == 'global' and c.name in ('@_Znwm', '@__cxa_allocate_exception') and c.name not in s.stubs and ins.res in s.typed_new and args[0].kind == 'num':   # exception objects too: a typed object keeps the vptr load of e.what() constant
            ty = s.typed_new[ins.res]
            call = '(uint8_t*)__vf_typed_new(malloc(sizeof(%s)), %s, sizeof(%s))' % (s.ctype(ty), A[0], s.ctype(ty))
        elif c.kind == 'global' and c.name in ('@_Znwm', '@_Znam') and c.name not in s.stubs and args[0].kind != 'num' and ins.res in getattr(s, 'alloc_elem', {}):
            et = s.ctype(s.alloc_elem[ins.res])     # --typed-alloc: n elements of the type the result is used as (CBMC then keeps the object field-sensitive)
            call = '(uint8_t*)__vf_typed_new(malloc(sizeof(%s) * ((%s) / sizeof(%s))), %s, sizeof(%s) * ((%s) / sizeof(%s)))' % (et, A[0], et, A[0], et, A[0], et)
        elif c.kind == 'global':
            fn = s.m.fns.get(c.name)
            # cast args to declared param types when pointer types differ
            if fn is not None:
                AA = []
                for i, a in enumerate(A):
                    if i < len(fn.params): AA.append('(%s)%s' % (s.ctype(fn.params[i][0]), a) if isinstance(s.resolve(fn.params[i][0]), PtrTy) else a)
                    else: AA.append(a)
                A = AA
            if c.name in s.stubs:
                A = [('(void*)' + s.expr(a)) if isinstance(s.resolve(a.ty), PtrTy) else s.expr(a) for a in args]
                call = '%s(%s)' % (s.fname(c.name), ', '.join(A))
                if isinstance(s.resolve(ins.ret), PtrTy): call = '((%s)%s)' % (s.ctype(ins.ret), call)
            else:
                call = '%s(%s)' % (s.fname(c.name), ', '.join(A))
            s.called.add(c.name)
        elif c.kind == 'local' and (c.name in getattr(s, 'inttoptr_src', {}) or c.name in getattr(s, 'phi_memptr', ())) and s.m.memptr_fns:
            # call through a pointer-to-member-function (non-virtual arm): the integer is one of the functions whose
            # address is materialised by ptrtoint somewhere in the module -> explicit dispatch by address, so CBMC does
            # not fan out to every signature-compatible function
            src = '(uint64_t)' + s.expr(c)
            cands = [fn for fn in s.m.memptr_fns if fn in s.m.fns and len(s.m.fns[fn].params) == len(args) and s.m.fns[fn].body is not None]
            # a member-pointer conversion never changes the return type: address-taken functions returning another type are no targets
            same_ret = [fn for fn in cands if s.ctype(s.m.fns[fn].ret) == s.ctype(ins.ret)]
            if same_ret: cands = same_ret
            has_ret = r is not None and not isinstance(ins.ret, VoidTy)
            if has_ret: decls[r] = s.ctype(ins.ret)
            parts = []
            for fn in cands:
                f2 = s.m.fns[fn]
                AA = [('(%s)%s' % (s.ctype(f2.params[i][0]), a)) if isinstance(s.resolve(f2.params[i][0]), PtrTy) else a for i, a in enumerate(A)]
                cl = '%s(%s)' % (s.fname(fn), ', '.join(AA))
                if has_ret and isinstance(s.resolve(ins.ret), PtrTy): cl = '(%s)%s' % (s.ctype(ins.ret), cl)
                parts.append('if (%s == (uint64_t)&%s) { %s%s; }' % (src, s.fname(fn), (r + ' = ') if has_ret else '', cl))
                s.called.add(fn); s.memptr_called.add(fn)
            ft = ins.fnty or FnTy(ins.ret, [a.ty for a in args], False)
            gen = '((%s)%s)(%s)' % (s.fnptr(ft), s.expr(c), ', '.join(A))
            if s.memptr_generic: parts.append('{ %s%s; } /* virtual arm / unknown target: generic indirect call */' % ((r + ' = ') if has_ret else '', gen))
            else: parts.append('{ __CPROVER_assert(0, "member-function pointer is virtual or outside the address-taken set (harness uses non-virtual callbacks only)"); __CPROVER_assume(0); }')
            body.append(' else '.join(parts))
            return
        elif c.kind == 'local' and getattr(s, 'vdispatch', False) and s.vslot_of(c.name) is not None and s.vcands(s.vslot_of(c.name), ins, args):
            # opt-in (--vdispatch): virtual call through vtable slot K -> explicit dispatch over the functions that occupy slot K in the vtables
            # defined in this module (CBMC's own function-pointer removal fans out over every signature-compatible function whenever the vptr
            # is not a constant, e.g. for an object pointer merged over several paths); any other target is reported, never ignored
            K = s.vslot_of(c.name); src = '(uint64_t)' + s.expr(c)
            has_ret = r is not None and not isinstance(ins.ret, VoidTy)
            if has_ret: decls[r] = s.ctype(ins.ret)
            parts = []
            for fn in s.vcands(K, ins, args):
                f2 = s.m.fns[fn]
                if fn in s.stubs:
                    AA = [('(void*)' + s.expr(a)) if isinstance(s.resolve(a.ty), PtrTy) else s.expr(a) for a in args]
                else:
                    AA = [('(%s)%s' % (s.ctype(f2.params[i][0]), a)) if isinstance(s.resolve(f2.params[i][0]), PtrTy) else a for i, a in enumerate(A)]
                cl = '%s(%s)' % (s.fname(fn), ', '.join(AA))
                if has_ret and isinstance(s.resolve(ins.ret), PtrTy): cl = '(%s)%s' % (s.ctype(ins.ret), cl)
                parts.append('if (%s == (uint64_t)&%s) { %s%s; }' % (src, s.fname(fn), (r + ' = ') if has_ret else '', cl))
                s.called.add(fn); s.memptr_called.add(fn)
            parts.append('{ __CPROVER_assert(0, "virtual call (vtable slot %d): target outside the vtables defined in this translation"); __CPROVER_assume(0); }' % K)
            body.append(' else '.join(parts))
            return
        else:
            # indirect
            ft = ins.fnty or FnTy(ins.ret, [a.ty for a in args], False)
            call = '((%s)%s)(%s)' % (s.fnptr(ft), s.expr(c), ', '.join(A))
        if r is not None and not isinstance(ins.ret, VoidTy):
            decls[r] = s.ctype(ins.ret); body.append('%s = %s;' % (r, call))
        else:
            body.append('%s;' % call)

    # ------- vtable-slot-aware dispatch (--vdispatch)
    def vslot_of(s, fp):
        """slot index K if local %fp is `load (gep (load objptr), K)` / `load (load objptr)`, else None"""
        a = s.load_of.get(fp)
        if a is None or a.kind != 'local': return None
        if a.name in s.gep_of:
            ops = s.gep_of[a.name]
            if len(ops) != 2 or ops[0].kind != 'local' or ops[1].kind != 'num': return None
            vt, K = ops[0].name, int(ops[1].text)
        else: vt, K = a.name, 0
        if vt not in s.load_of or K < 0: return None
        return K
    def vtable_slots(s):
        """slot K -> [(function, vtable global)] over the vtables defined in this module; plus the typeinfo ancestry (class -> proper ancestors)"""
        if getattr(s, '_vslots', None) is None:
            s._vslots = {}; s._ti_parents = {}
            def fn_of(v):
                while v is not None and v.kind in ('ccast',): v = v.a
                return v.name if v is not None and v.kind == 'global' and v.name in s.m.fns else None
            def arrays(v):
                if v is None: return
                if v.kind == 'carr': yield v
                for e in getattr(v, 'els', []) or []:
                    if e.kind in ('carr', 'cstruct'): yield from arrays(e)
            def ti_refs(v):
                out = []
                if v is None: return out
                if v.kind == 'global' and v.name.lstrip('@').strip('"').startswith('_ZTI'): out.append(v.name)
                for k in ('els', 'ops'):
                    for e in getattr(v, k, []) or []: out += ti_refs(e)
                if hasattr(v, 'a') and isinstance(getattr(v, 'a'), V): out += ti_refs(v.a)
                return out
            for g, gd in s.m.globals.items():
                nm = g.lstrip('@').strip('"')
                if nm.startswith('_ZTI') and gd.get('init') is not None and getattr(gd['init'], 'els', None):
                    s._ti_parents[nm[4:]] = [r.lstrip('@').strip('"')[4:] for e in gd['init'].els[2:] for r in ti_refs(e)]
                if not nm.startswith('_ZTV') or gd.get('init') is None: continue
                for arr in arrays(gd['init']):
                    for i, e in enumerate(arr.els):
                        fn = fn_of(e)
                        if fn and i >= 2: s._vslots.setdefault(i - 2, []).append((fn, nm[4:]))
        return s._vslots
    def class_of(s, ty):
        """Itanium-mangled class name of the pointee of an IR pointer type (plain, non-template classes only), else None"""
        if not isinstance(ty, PtrTy) or not isinstance(ty.to, NamedTy): return None
        m = re.fullmatch(r'%"?(?:class|struct)\.([A-Za-z_][A-Za-z0-9_]*(?:::[A-Za-z_][A-Za-z0-9_]*)*)"?', ty.to.name)
        if not m: return None
        parts = m.group(1).split('::')
        if parts == ['std', 'exception']: return 'St9exception'
        enc = ''.join('%d%s' % (len(q), q) for q in parts)
        return enc if len(parts) == 1 else 'N' + enc + 'E'
    def derives(s, cls, base):
        seen = set(); work = [cls]
        while work:
            x = work.pop()
            if x == base: return True
            if x in seen: continue
            seen.add(x); work += s._ti_parents.get(x, [])
        return False
    def vcands(s, K, ins, args):
        out = []
        def shape(t):
            rt = s.resolve(t)
            return 'p' if isinstance(rt, PtrTy) else ('v' if isinstance(rt, VoidTy) else s.ctype(t))
        slots = s.vtable_slots().get(K, [])
        # static class of the object (first argument): only vtables of classes derived from it can be the dynamic type
        base = s.class_of(args[0].ty) if args else None
        if base is not None and (base in s._ti_parents or any(base in ps for ps in s._ti_parents.values())):
            narrowed = [(fn, cls) for fn, cls in slots if s.derives(cls, base)]
            if narrowed: slots = narrowed
        for fn, cls in slots:
            f2 = s.m.fns[fn]
            if fn in out or len(f2.params) != len(args) or f2.vararg: continue
            if shape(f2.ret) != shape(ins.ret): continue
            if any(shape(f2.params[i][0]) != shape(a.ty) for i, a in enumerate(args)): continue
            out.append(fn)
        return out

    # ------- whole module
    def emit(s, roots):
        s.called = set()
        # reachability over functions and globals
        fn_out = collections.OrderedDict(); work = list(roots); gl_need = set()
        text_for_scan = {}
        while work:
            fnm = work.pop()
            if fnm in fn_out or fnm in s.stubs: continue
            f = s.m.fns.get(fnm)
            if f is None or f.body is None: fn_out[fnm] = None; continue
            s.called = set()
            s.memptr_called = set()
            code = s.emit_fn(f)
            fn_out[fnm] = code
            work += list(s.memptr_called)
            # scan body text for global refs (functions taken by address, globals)
            for g in set(re.findall(r'@(?:"(?:[^"\\]|\\.)*"|[-a-zA-Z$._0-9]+)', f.body)):
                if g in s.m.fns: work.append(g)
                elif g in s.m.globals: gl_need.add(g)
        # globals: transitive closure through initializers
        gl_out = collections.OrderedDict(); gwork = list(gl_need)
        def scan_const(v):
            if v is None: return
            if v.kind == 'global':
                if v.name in s.m.fns: fwork.append(v.name)
                elif v.name in s.m.globals and v.name not in gl_out and v.name not in gwork: gwork.append(v.name)
            for k in ('els', 'ops'):
                for e in getattr(v, k, []) or []: scan_const(e)
            for k in ('a', 'b', 'c'):
                if hasattr(v, k) and isinstance(getattr(v, k), V): scan_const(getattr(v, k))
        fwork = []
        while gwork or fwork:
            while fwork:
                fnm = fwork.pop()
                if fnm in fn_out or fnm in s.stubs: continue
                f = s.m.fns.get(fnm)
                if f is None or f.body is None: fn_out[fnm] = None; continue
                s.memptr_called = set()
                fn_out[fnm] = s.emit_fn(f)
                fwork += list(s.memptr_called)   # member-pointer dispatch targets of functions reached through initialisers
                for g in set(re.findall(r'@(?:"(?:[^"\\]|\\.)*"|[-a-zA-Z$._0-9]+)', f.body)):
                    if g in s.m.fns: fwork.append(g)
                    elif g in s.m.globals and g not in gl_out and g not in gwork: gwork.append(g)
            if gwork:
                g = gwork.pop()
                if g in gl_out: continue
                gd = s.m.globals[g]; gl_out[g] = gd
                scan_const(gd['init'])
        # emit
        protos = []; defs = []
        for fnm, code in fn_out.items():
            f = s.m.fns.get(fnm)
            if f is None: continue
            protos.append(s.proto(f) + ';')
            if fnm in getattr(s, 'wraps', ()) and f.body is not None: protos.append(s.proto(f, s.prefix + cid(fnm)) + ';')
        seen_st = set()
        for g in s.stubs:
            f = s.m.fns.get(g)
            if f is not None and s.stubs[g] not in seen_st:
                seen_st.add(s.stubs[g]); protos.append(s.stub_proto(f) + ';')
        gdecl = []; gdef = []
        for g, gd in gl_out.items():
            if gd.get('alias'): continue
            nm = 'g_' + cid(g)
            if gd['ext'] or gd['init'] is None:
                rt = s.resolve(gd['ty'])
                if g.startswith('@_ZTV') and not isinstance(rt, ArrTy):
                    gdecl.append('%s %s[16];  /* external vtable: only its address (+ small offset) is used */' % (s.ctype(gd['ty']), nm))
                elif isinstance(rt, ArrTy) and rt.n == 0:
                    # external table of unknown length (libsupc++ typeinfo vtables, ...): only its address (+ small offset) is used
                    gdecl.append('%s %s[16];' % (s.ctype(rt.el), nm))
                else:
                    gdecl.append('extern %s %s;' % (s.ctype(gd['ty']), nm))
            else:
                cq = 'const ' if gd['const'] else ''
                gdecl.append('extern %s%s %s;' % (cq, s.ctype(gd['ty']), nm))
                gdef.append('%s%s %s = %s;' % (cq, s.ctype(gd['ty']), nm, s.const_init(gd['init'], gd['ty'])))
        # typeinfo ancestry (transitive, reflexive) for the exception model: rows (ti, ancestor)
        def ti_refs(v):
            out = []
            if v is None: return out
            if v.kind == 'global' and v.name.startswith('@_ZTI'): out.append(v.name)
            for k in ('els', 'ops'):
                for e in getattr(v, k, []) or []: out += ti_refs(e)
            if hasattr(v, 'a') and isinstance(getattr(v, 'a'), V): out += ti_refs(v.a)
            return out
        parents = {}
        for g, gd in gl_out.items():
            if g.startswith('@_ZTI') and gd.get('init') is not None and getattr(gd['init'], 'els', None):
                parents[g] = [r for e in gd['init'].els[2:] for r in ti_refs(e)]
        rows = []
        for g in [g for g in gl_out if g.startswith('@_ZTI')]:
            seen = []; work = [g]
            while work:
                x = work.pop()
                if x in seen: continue
                seen.append(x); work += parents.get(x, [])
            rows += [(g, a) for a in seen if a in gl_out]
        ti_tab = 'const struct { const void *ti; const void *anc; } __vf_ti_tab[] = { %s{0, 0} };' % ''.join('{&g_%s, &g_%s}, ' % (cid(a), cid(b)) for a, b in rows)
        types = s.emit_type_section()
        protos += list(s.extra_protos.values())
        out = ['#include <stdint.h>', '#include <stddef.h>', '#include "vf_rt.h"', 'void *memcpy(void*, const void*, size_t); void *memmove(void*, const void*, size_t); void *memset(void*, int, size_t);', '']
        out += types + [''] + protos + [''] + gdecl + [''] + gdef + ['', ti_tab, '']
        undefined = []
        for fnm, code in fn_out.items():
            if code is None: undefined.append(fnm)
            else: out.append(code); out.append('')
        s.undefined_fns = [u for u in undefined if u in s.m.fns]
        return '\n'.join(out), undefined

    def trap_stubs(s, names, modeled):
        out = []
        for fnm in names:
            f = s.m.fns.get(fnm)
            if f is None or s.fname(fnm) in modeled: continue
            if fnm[1:].startswith('llvm.'): continue
            zero = '' if isinstance(f.ret, VoidTy) else (' (%s){0}' % s.ctype(f.ret) if s.is_agg(f.ret) else ' 0')
            out.append('%s { __vf_unmodeled("%s"); return%s; }' % (s.proto(f), fnm[1:], zero))
        return out

def main():
    ap = argparse.ArgumentParser()
    ap.add_argument('ll'); ap.add_argument('--roots', required=True); ap.add_argument('-o', required=True)
    ap.add_argument('--stub', action='append', default=[])
    ap.add_argument('--model', action='append', default=[])
    ap.add_argument('--stubfile', action='append', default=[])
    ap.add_argument('--prefix', default='')
    ap.add_argument('--provided', action='append', default=[], help='external symbol defined by the harness (no trap stub)')
    ap.add_argument('--loopcut', action='append', default=[], help='fn:hook:var1,var2,... (needs -g IR)')
    ap.add_argument('--rpo', action='store_true', help='emit basic blocks in reverse post-order (fewer spurious backward gotos)')
    ap.add_argument('--vdispatch', action='store_true', help='dispatch virtual calls explicitly over the functions in the same vtable slot of this module')
    ap.add_argument('--typed-alloc', action='store_true', help='operator new / new[] with a non-literal size: allocate n elements of the type the result is used as')
    ap.add_argument('--ptrdiff', action='store_true', help='emit sub(ptrtoint p, ptrtoint q) as the pointer difference p - q instead of subtracting uintptr_t values')
    ap.add_argument('--ptrcmp', action='store_true', help='emit <, <=, >, >= on pointers as pointer comparisons instead of comparing uintptr_t values')
    ap.add_argument('--ptrdiff0', action='store_true', help='with --ptrdiff: emit p == q ? 0 : p - q')
    ap.add_argument('--wrap', action='append', default=[], help='sym: every call of sym goes to w_<sym> (defined by the harness/model); the real body is still emitted under its own name')
    a = ap.parse_args()
    m = parse_module(open(a.ll).read())
    stubs = {}
    for st in a.stub:
        k, _, v = st.partition('='); stubs['@' + k] = v
    for sf in a.stubfile:
        for line in open(sf):
            line = line.split('#')[0].strip()
            if not line: continue
            k, _, v = line.partition('=')
            k = k.strip(); v = v.strip()
            if k.startswith('re:'):
                rx = re.compile(k[3:])
                for fn in m.fns:
                    if rx.search(fn[1:]): stubs[fn] = v
            else: stubs['@' + k] = v
    e = Emitter(m, stubs); e.prefix = a.prefix
    e.rpo = a.rpo; e.vdispatch = a.vdispatch
    e.wraps = set('@' + w for w in a.wrap)
    e.typed_alloc = a.typed_alloc
    e.ptrcmp = a.ptrcmp; e.ptrdiff = a.ptrdiff
    e.ptrdiff0 = a.ptrdiff0
    e.loopcuts = {}
    for lc in a.loopcut:
        fn, hook, vs = lc.split(':'); e.loopcuts.setdefault(fn, []).append(dict(hook=hook, vars=vs.split(',')))
    code, undefined = e.emit(['@' + r for r in a.roots.split(',')])
    modeled = set('x_' + cid('@' + n) for n in a.provided)
    mtext = ''
    for mf in a.model:
        t = open(mf).read(); mtext += '\n/* ---- model %s ---- */\n' % mf + t
        modeled |= set(re.findall(r'\b(x_[A-Za-z0-9_]+)\s*\(', t))
    code += mtext + '\n/* ---- trap stubs for unmodeled externals ---- */\n' + '\n'.join(e.trap_stubs(undefined, modeled)) + '\n'
    open(a.o, 'w').write(code)
    for fn, cuts in e.loopcuts.items():
        for c in cuts:
            if 'found' not in c:
                sys.stderr.write('error: loop cut %s:%s not matched (loop shape changed?)\n' % (fn, c['hook'])); sys.exit(3)
    sys.stderr.write('undefined externals (need models): %s\n' % ' '.join(u[1:] for u in undefined))
    for w in sorted(set(e.warn)): sys.stderr.write('warn: %s\n' % w)

if __name__ == '__main__':
    main()
