"""what is claimed per property (source for MANIFEST.json)"""
CLAIMS = {
 'C07': dict(
  technique='bounded symbolic execution (CBMC/SAT) of the real calc_chksum lowered from LLVM IR; word loop decided by a solver-checked loop invariant (base/step/exit) on an IR-level loop cut',
  text='The real Message::calc_chksum (clang IR -> ir2c -> CBMC) is proved equal to the byte sum mod 256 of exactly the requested range, with all loads inside that range, for every buffer size <= 65536, every offset/len and every content: the 4-byte word loop is cut at its header and the solver discharges base, step and exit of a lane-wise invariant, the <=7-iteration tail is unrolled. A bounded query on the uncut function (all contents, sizes <= 7/9) cross-checks the cut. Any counterexample is replayed on the native ASan build before it is reported.',
  note='Assumes x86-64 (unaligned loads defined), the 64-bit branch compiled here, malloc never failing; the invariant binds loop variables by -g debug names - if the loop shape changes the inductive harness is reported inconclusive and a structured bounded search (lengths 1100..8192) looks for a concrete failing buffer.'),
 'C10': dict(
  technique='bounded symbolic execution (CBMC/SAT) of the real RealmBase::get_rlm_idx/is_valid templates lowered from LLVM IR, over symbolic sorted tables and probe values',
  text='For char, int and double realms the real lookup code (including the inlined std::lower_bound/binary_search) is executed symbolically on ANY strictly ascending table of up to 8 (thorough 16) entries and ANY probe value; the solver shows that a reported index is inside the table and belongs to exactly the probed value, members are reported at their own position, and validity equals membership (sets) or inclusion (ranges), with bounds checks on a table object that ends at its last entry. Counterexamples are replayed on the native ASan build.',
  note='Tables are assumed sorted and duplicate-free (f8c output); NaN excluded; f8String realms use the same template but are not encoded (out-of-line std::string compare); range realms: only is_valid is claimed.'),
}
NOT_APPLICABLE = {
 'C13': 'deciding it means running f8c and compiling and executing the C++ it generates: the object of the property is a program produced at run time, there is no fixed function to encode symbolically (DESIGN.md section 6)',
 'C21': 'whole-system property of two multi-threaded processes, TCP, timers and file stores under drops and restarts; its ingredients are claimed separately (C16-C20, C22, C26, C27) but their composition is beyond bounded symbolic execution of the real C++ (DESIGN.md section 6)',
 'C32': 'recursive iostream-driven parser building heap trees, reference decoding delegated to libc regexec (no IR); symbolic inputs of the needed size with heap growth were measured out of reach on this image (DESIGN.md section 6)',
}
