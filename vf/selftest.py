#!/usr/bin/env python3
"""setup smoke test: tools present, ir2c translates one kernel, cbmc answers one query"""
import subprocess, sys, os, shutil, tempfile
for tool in ('clang++-14', 'llvm-link-14', 'cbmc', 'kissat', 'g++', 'gcc', 'z3-new'):
    if not shutil.which(tool): sys.exit('missing tool: ' + tool)
d = tempfile.mkdtemp(prefix='vf.selftest.')
try:
    open(d + '/k.cpp', 'w').write('extern "C" __attribute__((noinline)) unsigned vf_add(unsigned a, unsigned b) { unsigned s = 0; for (unsigned i = 0; i < b; ++i) s += a; return s; }\n')
    subprocess.check_call(['clang++-14', '-O1', '-S', '-emit-llvm', d + '/k.cpp', '-o', d + '/k.ll'])
    here = os.path.dirname(os.path.abspath(__file__))
    subprocess.check_call([sys.executable, here + '/ir2c.py', d + '/k.ll', '--roots', 'vf_add', '-o', d + '/k.c'], stderr=subprocess.DEVNULL)
    open(d + '/h.c', 'w').write('#include "k.c"\nunsigned nondet_u(void);\nint main(void){ unsigned a = nondet_u(), b = nondet_u(); __CPROVER_assume(b < 4); __CPROVER_assert(vf_add(a, b) == a * b, "mul"); return 0; }\n')
    r = subprocess.run(['cbmc', d + '/h.c', '-I', os.path.dirname(here) + '/models', '--unwind', '5', '--unwinding-assertions'], stdout=subprocess.PIPE, text=True)
    if 'VERIFICATION SUCCESSFUL' not in r.stdout: sys.exit('selftest failed:\n' + r.stdout[-800:])
    print('selftest ok')
finally:
    shutil.rmtree(d, ignore_errors=True)
